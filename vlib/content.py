"""Model contents in wire form: generator, real-`Model` builder, real-query runner with
canonicalisation, and the order-free Python restatement of the spec (search oracle).

Wire form of a Content (also what the Lean driver decodes, Driver/CoreWire.lean):
  {"vars": [[name, {"v": rat} | {"ia": FN}]], "pars": [...same...],
   "derived": [[name, FN]], "rxns": [[name, {args, e, "st": [[cpd, {"c": rat} | FN]]}]],
   "surs": [[name, {args, outs, es, "st": [[flux, [[cpd, coef]]]]}]], "data": [[name, rat]]}
  FN = {"args": [names], "e": FExpr}
"""
from __future__ import annotations

import ast
import math
import re
from fractions import Fraction

from . import fexpr
from .fexpr import Inexact, feval, rat_str

def canon(obj) -> str:
    import json

    return json.dumps(obj, sort_keys=True, separators=(",", ":"), default=str)


# --------------------------------------------------------------------------- real model


_DATA_NAMES: set = set()


def _unwrap(args):
    return tuple(i for i, a in enumerate(args) if a in _DATA_NAMES)


def _fn(d):
    return fexpr.compile_fn(d["e"], len(d["args"]), unwrap=_unwrap(d["args"]))


def _coef(cj):
    from mxlpy.types import Derived

    if "c" in cj:
        return fexpr.to_float(Fraction(cj["c"]))
    return Derived(fn=_fn(cj), args=list(cj["args"]))


def _value(vj):
    from mxlpy.types import InitialAssignment

    if "v" in vj:
        return fexpr.to_float(Fraction(vj["v"]))
    return InitialAssignment(fn=_fn(vj["ia"]), args=list(vj["ia"]["args"]))


def decl_sequence(content, rng=None):
    """(kind, name, payload) in a declaration order that respects per-container order;
    kinds are interleaved at random when an rng is given."""
    lanes = [
        [("var", k, v) for k, v in content.get("vars", [])],
        [("par", k, v) for k, v in content.get("pars", [])],
        [("derived", k, v) for k, v in content.get("derived", [])],
        [("rxn", k, v) for k, v in content.get("rxns", [])],
        [("sur", k, v) for k, v in content.get("surs", [])],
        [("readout", k, v) for k, v in content.get("readouts", [])],
    ]
    if rng is None:
        return [x for lane in lanes for x in lane]
    out = []
    lanes = [l for l in lanes if l]
    while lanes:
        lane = rng.choice(lanes)
        out.append(lane.pop(0))
        if not lane:
            lanes.remove(lane)
    return out


def apply_decl(m, kind, name, payload):
    from mxlpy.surrogates import qss

    if kind == "var":
        m.add_variable(name, _value(payload))
    elif kind == "par":
        m.add_parameter(name, _value(payload))
    elif kind == "derived":
        m.add_derived(name, fn=_fn(payload), args=list(payload["args"]))
    elif kind == "readout":
        m.add_readout(name, fn=_fn(payload), args=list(payload["args"]))
    elif kind == "rxn":
        m.add_reaction(
            name,
            fn=_fn(payload),
            args=list(payload["args"]),
            stoichiometry={c: _coef(cj) for c, cj in payload["st"]},
        )
    elif kind == "sur":
        m.add_surrogate(
            name,
            qss.Surrogate(
                model=fexpr.compile_multi(payload["es"], len(payload["args"]), unwrap=_unwrap(payload["args"])),
                args=list(payload["args"]),
                outputs=list(payload["outs"]),
                stoichiometries={f: {c: _coef(cj) for c, cj in st} for f, st in payload["st"]},
            ),
        )
    else:
        raise ValueError(kind)


def build_model(content, rng=None):
    from mxlpy import Model

    import pandas as pd

    m = Model()
    _DATA_NAMES.clear()
    _DATA_NAMES.update(k for k, _ in content.get("data", []))
    seq = decl_sequence(content, rng)
    data = [("data", k, v) for k, v in content.get("data", [])]
    # data sets are declared at random positions among the other declarations
    for d in data:
        seq.insert(rng.randrange(len(seq) + 1) if rng is not None else 0, d)
    for kind, name, payload in seq:
        if kind == "data":
            m.add_data(name, pd.Series([fexpr.to_float(Fraction(payload))]))
        else:
            apply_decl(m, kind, name, payload)
    return m


# --------------------------------------------------------------------------- canonical results


def num(x) -> str:
    x = float(x)
    if math.isnan(x):
        return "nan"
    if math.isinf(x):
        return "inf" if x > 0 else "-inf"
    return rat_str(Fraction(x))


def parse_missing(msg: str):
    out = []
    for line in msg.splitlines():
        mm = re.match(r"\t(.*?): (\[.*\])\s*$", line)
        if mm:
            out.append([mm.group(1), sorted(ast.literal_eval(mm.group(2)))])
    return sorted(out)


def canon_exc(e: BaseException):
    cls = type(e).__name__
    if cls == "MissingDependenciesError":
        return {"err": [cls, parse_missing(str(e))]}
    if cls == "KeyError":
        msg = str(e.args[0]) if e.args else ""
        # pandas `.loc[names]`: "['a'] not in index" / "None of [Index(['a'], dtype=…)] are in the [index|columns]"
        mm = re.match(r"^\[(.*)\] not in index$", msg) or re.match(r"^None of \[Index\(\[(.*?)\]", msg)
        if mm:
            try:
                msg = str(ast.literal_eval("[" + mm.group(1) + "]")[0])
            except Exception:  # noqa: BLE001
                pass
        return {"err": [cls, msg]}
    return {"err": [cls]}


def canon_model_res(r):
    """canonical form of one driver result ({"ok": ..} | {"err": [cls, payload]})"""
    if "err" in r:
        cls = r["err"][0]
        if cls == "MissingDependenciesError":
            return {"err": [cls, sorted([k, sorted(v)] for k, v in r["err"][1])]}
        if cls == "KeyError":
            return {"err": [cls, r["err"][1]]}
        return {"err": [cls]}
    return r


def _vars_arg(v):
    return None if v is None else {k: fexpr.to_float(Fraction(x)) for k, x in v}


def run_query(m, q):
    """Run one query against the real model; canonical JSON-able result."""
    try:
        kind = q[0]
        if kind == "init":
            return {"ok": [[k, num(v)] for k, v in m.get_initial_conditions().items()]}
        if kind == "pvals":
            return {"ok": [[k, num(v)] for k, v in m.get_parameter_values().items()]}
        if kind == "classes":
            return {"ok": [list(m.get_derived_parameter_names()), list(m.get_derived_variable_names())]}
        if kind == "simy0":
            from mxlpy import Simulator

            sim = Simulator(m)
            return {"ok": [[k, num(v)] for k, v in sim.y0.items()]}
        if kind == "tc":
            return run_tc(m, q[1])
        if kind == "argnames":
            return {"ok": list(m.get_arg_names(**flag_kwargs(q[1])))}
        if kind == "argsftc":
            return run_argsftc(m, q[1], q[2])
        if kind == "simupd":
            # a Simulator built on the model, with variables overridden before any simulation,
            # must not change what the model itself reports afterwards
            from mxlpy import Simulator

            sim = Simulator(m)
            sim.update_variables({k: fexpr.to_float(Fraction(v)) for k, v in q[1]})
            return {"ok": [[k, num(v)] for k, v in sim.y0.items()]}
        t = fexpr.to_float(Fraction(q[2])) if kind != "call" else fexpr.to_float(Fraction(q[1]))
        if kind == "args":
            s = m.get_args(_vars_arg(q[1]), t)
            return {"ok": sorted([k, num(v)] for k, v in s.items())}
        if kind == "argsf":
            # the selection AND its order are observable (Series index = get_arg_names order)
            s = m.get_args(_vars_arg(q[1]), t, **flag_kwargs(q[3]))
            return {"ok": [[k, num(v)] for k, v in s.items()]}
        if kind == "fluxes":
            s = m.get_fluxes(_vars_arg(q[1]), t)
            return {"ok": [[k, num(v)] for k, v in s.items()]}
        if kind == "rhs":
            s = m.get_right_hand_side(_vars_arg(q[1]), t)
            return {"ok": [[k, num(v)] for k, v in s.items()]}
        if kind == "call":
            out = m(t, [fexpr.to_float(Fraction(x)) for x in q[2]])
            return {"ok": [num(v) for v in out]}
        if kind == "stoichvar":
            # q = ["stoichvar", vars, t, variable]
            d = m.get_stoichiometries_of_variable(q[3], _vars_arg(q[1]), t)
            return {"ok": sorted([r, num(v)] for r, v in d.items())}
        if kind == "stoich":
            df = m.get_stoichiometries(_vars_arg(q[1]), t)
            return {"ok": canon_stoich({c: {r: num(df.loc[c, r]) for r in df.columns} for c in df.index})}
        raise ValueError(q)
    except Exception as e:  # noqa: BLE001
        return canon_exc(e)


FLAG_NAMES = ["include_time", "include_variables", "include_parameters", "include_derived_parameters",
              "include_derived_variables", "include_reactions", "include_surrogate_variables",
              "include_surrogate_fluxes", "include_readouts"]


def flag_kwargs(fl):
    return dict(zip(FLAG_NAMES, [bool(x) for x in fl], strict=True))


def run_argsftc(m, rows, fl):
    """get_args_time_course with flags (no include_time there); rows in index order, columns in returned order"""
    import pandas as pd

    idx = [fexpr.to_float(Fraction(t)) for t, _ in rows]
    df = pd.DataFrame([{k: fexpr.to_float(Fraction(v)) for k, v in st} for _, st in rows], index=idx)
    kw = flag_kwargs(fl)
    del kw["include_time"]
    try:
        out = m.get_args_time_course(df, **kw)
        return {"ok": [[[k, num(v)] for k, v in out.loc[i].items()] for i in out.index]}
    except Exception as e:  # noqa: BLE001
        return canon_exc(e)


def hash_name(c: str) -> int:
    import zlib

    return zlib.crc32(c.encode())


def run_tc(m, rows):
    """time-course forms on a table of states (index = time)"""
    import pandas as pd

    out = {}
    idx = [fexpr.to_float(Fraction(t)) for t, _ in rows]
    df = pd.DataFrame([{k: fexpr.to_float(Fraction(v)) for k, v in st} for _, st in rows], index=idx)
    # column order is not part of the contract: present the columns sorted by a hash of the name
    cols = sorted(df.columns, key=lambda c: (hash_name(c), c))
    df = df[cols]

    def rows_of(frame):
        return [sorted([k, num(v)] for k, v in frame.loc[i].items()) for i in frame.index]

    try:
        args = m.get_args_time_course(df)
        out["args"] = {"ok": rows_of(args)}
    except Exception as e:  # noqa: BLE001
        args = None
        out["args"] = canon_exc(e)
    try:
        out["fluxes"] = {"ok": rows_of(m.get_fluxes_time_course(df))}
    except Exception as e:  # noqa: BLE001
        out["fluxes"] = canon_exc(e)
    if args is None:
        out["rhs"] = out["args"]
    else:
        try:
            out["rhs"] = {"ok": rows_of(m.get_right_hand_side_time_course(args))}
        except Exception as e:  # noqa: BLE001
            out["rhs"] = canon_exc(e)
    return out


def canon_tc_model(r):
    out = {}
    for k in ("args", "fluxes", "rhs"):
        x = canon_model_res(r[k])
        if "ok" in x:
            x = {"ok": [sorted(row) for row in x["ok"]]}
        out[k] = x
    return out


def canon_stoich(d):
    """{cpd: {flux: rat}} -> sorted nested list without zeros / empty rows"""
    out = []
    for c in sorted(d):
        row = sorted([r, v] for r, v in d[c].items() if v not in ("0", "nan"))
        if row:
            out.append([c, row])
    return out


def canon_stoich_model(r):
    if "ok" not in r:
        return canon_model_res(r)
    return {"ok": canon_stoich({c: dict(row) for c, row in r["ok"]})}


# --------------------------------------------------------------------------- spec oracle


class SpecMissing(Exception):
    def __init__(self, missing):
        self.missing = missing


class SpecCircular(Exception):
    pass


class SpecKeyError(Exception):
    """a readout / computed coefficient names something the argument table does not hold (those names are not part
    of the dependency check): Python raises KeyError(name)"""

    def __init__(self, name):
        self.name = name


class Spec:
    """Order-free restatement: the value a name has is its function applied to the values
    of the names it mentions.  Used as the search oracle S; it never looks at any order."""

    def __init__(self, content):
        self.c = content
        self.vars = dict(content.get("vars", []))
        self.pars = dict(content.get("pars", []))
        self.derived = dict(content.get("derived", []))
        self.rxns = dict(content.get("rxns", []))
        self.surs = dict(content.get("surs", []))
        self.data = dict(content.get("data", []))
        self.readouts = dict(content.get("readouts", []))
        # providers: name -> ("fn", FN) | ("sur", sname, idx)
        self.prov = {}
        self.comps = {}  # component name -> required names
        for k, v in list(self.vars.items()) + list(self.pars.items()):
            if "ia" in v:
                self.prov[k] = ("fn", v["ia"])
                self.comps[k] = list(v["ia"]["args"])
        for k, v in self.derived.items():
            self.prov[k] = ("fn", v)
            self.comps[k] = list(v["args"])
        for k, v in self.rxns.items():
            self.prov[k] = ("fn", v)
            self.comps[k] = list(v["args"])
        for k, v in self.surs.items():
            self.comps[k] = list(v["args"])
            for i, o in enumerate(v["outs"]):
                self.prov[o] = ("sur", k, i)
        self.base = set(k for k, v in self.vars.items() if "v" in v) | set(
            k for k, v in self.pars.items() if "v" in v
        ) | set(self.data) | {"time"}

    def check(self):
        allnames = self.base | set(self.prov)
        missing = {}
        for k, req in self.comps.items():
            mis = sorted(set(req) - allnames)
            if mis:
                missing[k] = mis
        if missing:
            raise SpecMissing(sorted([k, v] for k, v in missing.items()))
        # cycles among components
        def comp_of(name):
            p = self.prov.get(name)
            if p is None:
                return None
            return name if p[0] == "fn" else p[1]

        color = {}

        def dfs(k):
            color[k] = 1
            for r in self.comps[k]:
                ck = comp_of(r)
                if ck is None:
                    continue
                if color.get(ck) == 1:
                    raise SpecCircular
                if ck not in color:
                    dfs(ck)
            color[k] = 2

        for k in self.comps:
            if k not in color:
                dfs(k)

    def _resolver(self, basevals):
        memo = dict(basevals)
        surmemo = {}

        def val(name):
            if name in memo:
                return memo[name]
            p = self.prov[name]
            if p[0] == "fn":
                f = p[1]
                v = feval(f["e"], [val(a) for a in f["args"]])
            else:
                _, sname, idx = p
                if sname not in surmemo:
                    s = self.surs[sname]
                    xs = [val(a) for a in s["args"]]
                    surmemo[sname] = [feval(e, xs) for e in s["es"]]
                v = surmemo[sname][idx]
            memo[name] = v
            return v

        return val

    def init_values(self):
        """value of every name at time 0 from the declared initial state"""
        self.check()
        base = {"time": Fraction(0)}
        for k, v in self.vars.items():
            if "v" in v:
                base[k] = Fraction(v["v"])
        for k, v in self.pars.items():
            if "v" in v:
                base[k] = Fraction(v["v"])
        for k, v in self.data.items():
            base[k] = Fraction(v)
        val = self._resolver(base)
        return {n: val(n) for n in list(self.base) + list(self.prov)}

    def init_conditions(self):
        iv = self.init_values()
        return [[k, rat_str(iv[k])] for k in self.vars]

    def check_fluxes(self, env):
        """every entry point that looks the fluxes up reads them from the dict `_get_args` returned: a stoichiometry key
        that is a data-set name, or no output at all, is a KeyError"""
        for f in self.flux_names():
            if f in self.data or f not in env:
                raise SpecKeyError(f)

    def at(self, state, t):
        """value of every name at (state, t); parameters defined by initial assignment keep
        their time-zero value"""
        iv = self.init_values()
        base = {"time": Fraction(t)}
        for k in self.pars:
            base[k] = iv[k]
        for k in self.vars:
            base[k] = Fraction(state[k]) if state is not None else iv[k]
        for k, v in self.data.items():
            base[k] = Fraction(v)
        val = self._resolver(base)
        names = set(self.vars) | set(self.pars) | set(self.derived) | set(self.rxns) | {"time"} | set(self.data)
        for s in self.surs.values():
            names |= set(s["outs"])
        return {n: val(n) for n in names}

    def coef(self, cj, env_val):
        if "c" in cj:
            return Fraction(cj["c"])
        return feval(cj["e"], [env_val[a] if a in env_val else self._late(a, env_val) for a in cj["args"]])

    def _late(self, a, env_val):
        raise SpecKeyError(a)

    def flux_names(self):
        out = list(self.rxns)
        for s in self.surs.values():
            out += [f for f, _ in s["st"]]
        return out

    def rhs(self, state, t):
        env = self.at(state, t)
        self.check_fluxes(env)
        d = {k: Fraction(0) for k in self.vars}
        def g(v):
            if not fexpr.is_dyadic_small(v):
                raise Inexact(str(v))
            return v

        for r, rx in self.rxns.items():
            for cpd, cj in rx["st"]:
                d[cpd] = g(d[cpd] + g(self.coef(cj, env) * env[r]))
        for s in self.surs.values():
            for f, st in s["st"]:
                for cpd, cj in st:
                    d[cpd] = g(d[cpd] + g(self.coef(cj, env) * env[f]))
        return d

    def stoich(self, state, t):
        env = self.at(state, t)
        self.check_fluxes(env)
        d = {}
        for r, rx in self.rxns.items():
            for cpd, cj in rx["st"]:
                d.setdefault(cpd, {})[r] = rat_str(self.coef(cj, env))
        for s in self.surs.values():
            for f, st in s["st"]:
                for cpd, cj in st:
                    d.setdefault(cpd, {})[f] = rat_str(self.coef(cj, env))
        return canon_stoich(d)

    def stoich_of(self, state, t, x):
        env = self.at(state, t)
        self.check_fluxes(env)
        out = {}
        for r, rx in self.rxns.items():
            for cpd, cj in rx["st"]:
                if cpd == x:
                    out[r] = rat_str(self.coef(cj, env))
        for s in self.surs.values():
            for f, st in s["st"]:
                for cpd, cj in st:
                    if cpd == x:
                        out[f] = rat_str(self.coef(cj, env))
        return sorted([k, v] for k, v in out.items())

    def touched_vars(self):
        out = []
        for _, rx in self.rxns.items():
            out += [c for c, _ in rx["st"]]
        for s in self.surs.values():
            for _, st in s["st"]:
                out += [c for c, _ in st]
        return [x for x in self.vars if x in out]

    def only_params(self):
        """least fixed point: derived whose every argument is a parameter or such a derived"""
        res = set()
        changed = True
        while changed:
            changed = False
            for k, f in self.derived.items():
                if k not in res and all(a in self.pars or a in res for a in f["args"]):
                    res.add(k)
                    changed = True
        return res

    def arg_names(self, fl):
        """declarative restatement of get_arg_names: the groups in the documented order, each group in
        declaration order"""
        t, v, p, dp, dv, r, sv, sf, ro = [bool(x) for x in fl]
        op = self.only_params()
        names = []
        if t:
            names.append("time")
        if v:
            names += list(self.vars)
        if p:
            names += list(self.pars)
        if dv:
            names += [k for k in self.derived if k not in op]
        if dp:
            names += [k for k in self.derived if k in op]
        if r:
            names += list(self.rxns)
        if sv:
            for s_ in self.surs.values():
                fl_ = {f for f, _ in s_["st"]}
                names += [o for o in s_["outs"] if o not in fl_]
        if sf:
            for s_ in self.surs.values():
                names += [f for f, _ in s_["st"]]
        if ro:
            names += list(self.readouts)
        return names

    def args_sel(self, state, t, fl):
        env = self.at(state, t)
        vals = {k: v for k, v in env.items() if k not in self.data}
        if fl[8]:
            # readouts are resolved like everything else (dependency order, F-C01-3 repaired): a readout naming
            # something that is neither in the argument table, nor a data set, nor a readout is a missing dependency
            known = set(env) | set(self.readouts)
            missing = sorted([k, sorted(set(f["args"]) - known)] for k, f in self.readouts.items()
                             if set(f["args"]) - known)
            if missing:
                raise SpecMissing(missing)
            memo = {}

            def ro_val(k, stack=()):
                if k in memo:
                    return memo[k]
                if k in stack:
                    raise SpecCircular
                f = self.readouts[k]
                xs = [ro_val(a, stack + (k,)) if a in self.readouts else env[a] for a in f["args"]]
                memo[k] = feval(f["e"], xs)
                return memo[k]

            for k in self.readouts:
                vals[k] = ro_val(k)
        out = []
        for k in self.arg_names(fl):
            if k not in vals:
                raise SpecKeyError(k)
            out.append([k, rat_str(vals[k])])
        return out

    def answer_tc(self, rows):
        out = {}

        def part(name, fn):
            try:
                out[name] = {"ok": [fn(t, dict(st)) for t, st in rows]}
            except SpecKeyError as e:
                out[name] = {"err": ["KeyError", e.name]}

        def p_args(t, st):
            env = self.at(st, t)
            self.check_fluxes(env)
            return sorted([k, rat_str(v)] for k, v in env.items() if k != "time" and k not in self.data)

        def p_fluxes(t, st):
            env = self.at(st, t)
            self.check_fluxes(env)
            return sorted([k, rat_str(env[k])] for k in self.flux_names())

        def p_rhs(t, st):
            d = self.rhs(st, t)
            return sorted([k, rat_str(d[k])] for k in self.vars)

        part("args", p_args)
        part("fluxes", p_fluxes)
        part("rhs", p_rhs)
        return out

    def answer(self, q):
        """spec answer to a query, canonical form"""
        try:
            kind = q[0]
            if kind in ("init", "simy0"):
                return {"ok": self.init_conditions()}
            if kind == "classes":
                self.check()
                op = self.only_params()
                return {"ok": [[k for k in self.derived if k in op], [k for k in self.derived if k not in op]]}
            if kind == "pvals":
                self.check()
                return {"ok": sorted([k, rat_str(Fraction(v["v"]))] for k, v in self.pars.items() if "v" in v)}
            if kind == "tc":
                return self.answer_tc(q[1])
            if kind == "argnames":
                # only the two derived groups need the resolved model (and so reject a bad graph)
                if q[1][3] or q[1][4]:
                    self.check()
                return {"ok": self.arg_names(q[1])}
            if kind == "argsftc":
                fl = list(q[2])
                fl[0] = False
                return {"ok": [self.args_sel(dict(st), t, fl) for t, st in q[1]]}
            if kind == "simupd":
                ic = dict(self.init_conditions())
                ic.update({k: rat_str(Fraction(v)) for k, v in q[1]})
                return {"ok": [[k, ic[k]] for k in self.vars]}
            if kind == "call":
                st = dict(zip(self.vars, q[2], strict=True))
                d = self.rhs(st, q[1])
                return {"ok": [rat_str(d[k]) for k in self.vars]}
            state = None if q[1] is None else dict(q[1])
            if kind == "args":
                env = self.at(state, q[2])
                self.check_fluxes(env)
                return {"ok": sorted([k, rat_str(v)] for k, v in env.items() if k not in self.data)}
            if kind == "argsf":
                return {"ok": self.args_sel(state, q[2], q[3])}
            if kind == "fluxes":
                env = self.at(state, q[2])
                self.check_fluxes(env)
                return {"ok": [[k, rat_str(env[k])] for k in self.flux_names()]}
            if kind == "rhs":
                d = self.rhs(state, q[2])
                return {"ok": [[k, rat_str(d[k])] for k in self.vars]}
            if kind == "stoich":
                return {"ok": self.stoich(state, q[2])}
            if kind == "stoichvar":
                return {"ok": self.stoich_of(state, q[2], q[3])}
            raise ValueError(q)
        except SpecMissing as e:
            err = {"err": ["MissingDependenciesError", e.missing]}
        except SpecCircular:
            err = {"err": ["CircularDependencyError"]}
        except SpecKeyError as e:
            err = {"err": ["KeyError", e.name]}
        return {"args": err, "fluxes": err, "rhs": err} if q[0] == "tc" else err


# --------------------------------------------------------------------------- generator


def gen_content(rng, *, n_vars=(1, 5), n_pars=(0, 4), n_comps=(1, 8), p_ia=0.3, p_sur=0.25,
                p_time=0.2, shuffle=True, small=(1, 2, 3), p_data=0.0, p_readouts=0.0, p_badflux=0.0):
    """Random well-formed content, acyclic and complete by construction, declaration
    order shuffled afterwards."""
    nv = rng.randint(*n_vars)
    npar = rng.randint(*n_pars)
    vars_, pars, derived, rxns, surs = [], [], [], [], []
    pool = []
    plain_vars = []
    for i in range(nv):
        if i > 0 and rng.random() < p_ia * 0.5:
            continue  # becomes an IA variable later
        k = f"x{i}"
        vars_.append([k, {"v": str(rng.choice(small))}])
        pool.append(k)
        plain_vars.append(k)
    ia_var_names = [f"x{i}" for i in range(nv) if f"x{i}" not in plain_vars]
    for i in range(npar):
        k = f"p{i}"
        pars.append([k, {"v": str(rng.choice(list(small) + ["1/2"]))}])
        pool.append(k)
    if rng.random() < p_time:
        pool.append("time")
    data = []
    if rng.random() < p_data:
        for i in range(rng.randint(1, 2)):
            data.append([f"dat{i}", str(rng.choice(small))])
            pool.append(f"dat{i}")
    all_var_names = [f"x{i}" for i in range(nv)]

    def pick_args(lo=1, hi=3):
        n = rng.randint(lo, min(hi, max(lo, len(pool))))
        return [rng.choice(pool) for _ in range(n)] if pool else []

    def mkfn(depth=2):
        args = pick_args()
        return {"args": args, "e": fexpr.gen_expr(rng, len(args), depth)}

    def mkcoef():
        r = rng.random()
        if r < 0.6:
            return {"c": str(rng.choice([-2, -1, 1, 2, "1/2", "-1/2", 3]))}
        args = pick_args(1, 2)
        return {"args": args, "e": fexpr.gen_expr(rng, len(args), 1)}

    ncomp = rng.randint(*n_comps)
    kinds = []
    for _ in range(ncomp):
        r = rng.random()
        kinds.append("derived" if r < 0.4 else "rxn" if r < 0.8 else "sur" if r < 0.8 + p_sur * 0.6 else "iapar")
    kinds += ["iavar"] * len(ia_var_names)
    rng.shuffle(kinds)
    if "rxn" not in kinds:
        kinds.append("rxn")
    cnt = {"derived": 0, "rxn": 0, "sur": 0, "iapar": 0}
    ia_iter = iter(ia_var_names)
    for kd in kinds:
        if kd == "derived":
            k = f"d{cnt['derived']}"
            cnt["derived"] += 1
            derived.append([k, mkfn()])
            pool.append(k)
        elif kd == "rxn":
            k = f"r{cnt['rxn']}"
            cnt["rxn"] += 1
            f = mkfn()
            cpds = rng.sample(all_var_names, rng.randint(1, min(3, nv)))
            f["st"] = [[c, mkcoef()] for c in cpds]
            rxns.append([k, f])
            pool.append(k)
        elif kd == "sur":
            k = f"s{cnt['sur']}"
            cnt["sur"] += 1
            args = pick_args()
            nout = rng.randint(1, 3)
            outs = [f"{k}o{j}" for j in range(nout)]
            es = [fexpr.gen_expr(rng, len(args), 1) for _ in outs]
            nflux = rng.randint(0, nout)
            st = []
            for o in rng.sample(outs, nflux):
                cpds = rng.sample(all_var_names, rng.randint(1, min(2, nv)))
                st.append([o, [[c, mkcoef()] for c in cpds]])
            surs.append([k, {"args": args, "outs": outs, "es": es, "st": st}])
            pool.extend(outs)
        elif kd == "iapar":
            k = f"q{cnt['iapar']}"
            cnt["iapar"] += 1
            pars.append([k, {"ia": mkfn(1)}])
            pool.append(k)
        elif kd == "iavar":
            k = next(ia_iter)
            vars_.append([k, {"ia": mkfn(1)}])
            pool.append(k)
    if surs and rng.random() < p_badflux:
        # a surrogate stoichiometry KEY that is not bound in the dict `_get_args` returns: a data-set name or no
        # output at all (add_surrogate does not check the keys) — every flux lookup is then a KeyError
        _, su = rng.choice(surs)
        bad = rng.choice([d[0] for d in data] + ["ghost"])
        if su["st"]:
            su["st"][rng.randrange(len(su["st"]))][0] = bad
        else:
            su["st"].append([bad, [[all_var_names[0], {"c": "1"}]]])
    readouts = []
    if rng.random() < p_readouts:
        # readouts name anything the argument table holds, data sets, and readouts declared BEFORE them
        # (readouts are evaluated in declaration order, F-C01-3)
        ro_pool = list(pool)
        for i in range(rng.randint(1, 3)):
            n = rng.randint(1, min(3, max(1, len(ro_pool))))
            args = [rng.choice(ro_pool) for _ in range(n)] if ro_pool else []
            readouts.append([f"ro{i}", {"args": args, "e": fexpr.gen_expr(rng, len(args), 1)}])
            ro_pool.append(f"ro{i}")
    if shuffle:
        for lst in (vars_, pars, derived, rxns, surs):
            rng.shuffle(lst)
    out = {"vars": vars_, "pars": pars, "derived": derived, "rxns": rxns, "surs": surs}
    if data:
        out["data"] = data
    if readouts:
        out["readouts"] = readouts
    return out


def gen_flags(rng):
    """nine include_* flags; biased so that single groups, everything and random mixtures all occur"""
    r = rng.random()
    if r < 0.15:
        return [True] * 9
    if r < 0.3:
        fl = [False] * 9
        fl[rng.randrange(9)] = True
        return fl
    if r < 0.4:
        return [True] * 8 + [False]
    return [rng.random() < 0.5 for _ in range(9)]


def gen_state(rng, content, vals=(0, 1, 2, 3, 5)):
    return [[k, str(rng.choice(vals))] for k, _ in content["vars"]]


def shape_of(content) -> str:
    nia = sum(1 for _, v in content["vars"] + content["pars"] if "ia" in v)
    ndyn = sum(1 for _, r in content["rxns"] for _, c in r["st"] if "c" not in c)
    return (f"v{len(content['vars'])}p{len(content['pars'])}d{len(content['derived'])}"
            f"r{len(content['rxns'])}s{len(content['surs'])}ia{nia}dc{min(ndyn, 3)}"
            + (f"ro{len(content['readouts'])}" if content.get("readouts") else ""))
