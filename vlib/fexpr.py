"""Function expressions shared by the harness (real Python functions) and the Lean driver.

Wire form (JSON): ["a", i] | ["c", "n/d"] | ["+", e, e] | ["-", e, e] | ["*", e, e] | ["neg", e]
"""
from __future__ import annotations

import importlib.util
import itertools
import linecache
import sys
from fractions import Fraction
from pathlib import Path

_counter = itertools.count()


def rat_str(q) -> str:
    q = Fraction(q)
    return str(q.numerator) if q.denominator == 1 else f"{q.numerator}/{q.denominator}"


def rat_of(s) -> Fraction:
    return Fraction(s)


def to_float(q: Fraction) -> float:
    f = float(q)
    assert Fraction(f) == q, f"{q} is not exactly representable"
    return f


def is_dyadic_small(q: Fraction, bits: int = 50) -> bool:
    d = q.denominator
    return (d & (d - 1)) == 0 and abs(q.numerator).bit_length() <= bits and d.bit_length() <= bits


class Inexact(Exception):
    """an intermediate value left the range in which double arithmetic is exact"""


def feval(e, xs, guard: bool = True) -> Fraction:
    tag = e[0]
    if tag == "a":
        v = xs[e[1]]
    elif tag == "c":
        v = Fraction(e[1])
    elif tag == "+":
        v = feval(e[1], xs, guard) + feval(e[2], xs, guard)
    elif tag == "-":
        v = feval(e[1], xs, guard) - feval(e[2], xs, guard)
    elif tag == "*":
        v = feval(e[1], xs, guard) * feval(e[2], xs, guard)
    elif tag == "neg":
        v = -feval(e[1], xs, guard)
    else:
        raise ValueError(e)
    if guard and not is_dyadic_small(v):
        raise Inexact(str(v))
    return v


def src_expr(e, argnames) -> str:
    tag = e[0]
    if tag == "a":
        return argnames[e[1]]
    if tag == "c":
        q = Fraction(e[1])
        f = to_float(q)
        return repr(f) if f >= 0 else f"({f!r})"
    if tag in "+-*":
        return f"({src_expr(e[1], argnames)} {tag} {src_expr(e[2], argnames)})"
    if tag == "neg":
        return f"(-{src_expr(e[1], argnames)})"
    raise ValueError(e)


def max_arg(e) -> int:
    if e[0] == "a":
        return e[1]
    if e[0] == "c":
        return -1
    return max(max_arg(x) for x in e[1:])


def src_def(name: str, e, arity: int, argnames=None, unwrap=()) -> str:
    argnames = argnames or [f"a{i}" for i in range(arity)]
    # arguments that are data sets arrive as one-element pandas Series: read their value
    pre = "".join(f"    {argnames[i]} = float({argnames[i]}.iloc[0])\n" for i in unwrap)
    return f"def {name}({', '.join(argnames)}):\n{pre}    return {src_expr(e, argnames)}\n"


def compile_fn(e, arity: int, name: str | None = None, argnames=None, unwrap=()):
    """A real Python function computing `e`; source is registered with linecache so
    `inspect.getsource` works."""
    name = name or f"f{next(_counter)}"
    src = src_def(name, e, arity, argnames, unwrap)
    filename = f"<mxlverif-{name}-{next(_counter)}>"
    linecache.cache[filename] = (len(src), None, src.splitlines(True), filename)
    ns: dict = {}
    exec(compile(src, filename, "exec"), ns)  # noqa: S102
    fn = ns[name]
    fn.__module__ = "__main__"
    return fn


def compile_multi(es, arity: int, name: str | None = None, unwrap=()):
    """surrogate function returning a tuple"""
    name = name or f"s{next(_counter)}"
    argnames = [f"a{i}" for i in range(arity)]
    body = ", ".join(src_expr(e, argnames) for e in es)
    pre = "".join(f"    {argnames[i]} = float({argnames[i]}.iloc[0])\n" for i in unwrap)
    src = f"def {name}({', '.join(argnames)}):\n{pre}    return ({body},)\n"
    ns: dict = {}
    exec(compile(src, f"<mxlverif-{name}>", "exec"), ns)  # noqa: S102
    return ns[name]


def write_module(path: Path, modname: str, source: str):
    """Write real source to disk and import it (needed where the code under test
    re-parses files or follows imports)."""
    path.parent.mkdir(parents=True, exist_ok=True)
    path.write_text(source)
    spec = importlib.util.spec_from_file_location(modname, path)
    mod = importlib.util.module_from_spec(spec)
    sys.modules[modname] = mod
    spec.loader.exec_module(mod)
    return mod


def gen_expr(rng, arity: int, depth: int = 2, consts=(-2, -1, 1, 2, 3, "1/2")):
    """Random expression; every argument position is used with high probability."""
    if arity == 0:
        return ["c", str(rng.choice(consts))]

    def leaf():
        if rng.random() < 0.8:
            return ["a", rng.randrange(arity)]
        return ["c", str(rng.choice(consts))]

    def go(d):
        if d == 0 or rng.random() < 0.25:
            return leaf()
        op = rng.choice(["+", "-", "*", "+", "*", "neg"])
        if op == "neg":
            return ["neg", go(d - 1)]
        return [op, go(d - 1), go(d - 1)]

    e = go(depth)
    # make sure each argument matters: add the unused ones linearly
    used = set()

    def collect(x):
        if x[0] == "a":
            used.add(x[1])
        elif x[0] != "c":
            for y in x[1:]:
                collect(y)

    collect(e)
    for i in range(arity):
        if i not in used:
            e = [rng.choice(["+", "*", "-"]), e, ["a", i]]
    return e
